(* PartitionFacts.v — assembling C05/C06: the vertical comparison of an aligned forest. *)
From Coq Require Import List Arith Bool String Lia Permutation.
From PyHam Require Import Tax Ortho Mapper Preds.
From PyHam.proofs Require Import TaxFacts MapperFacts ForestFacts ClusterFacts.
Import ListNotations.

Definition at_tax (X : taxon) (x : hog) : bool := taxon_eqb (htax x) X.

(* ---------- the genome enumeration is "all nodes at the taxon" ---------- *)
Lemma at_level_filter X h : forall ch f,
  map (fun e => fst (fst e)) (at_level X ch f h) = filter (at_tax X) (all_of h).
Proof.
  induction h as [g p|o p m ks IH] using hog_ind'; intros ch f.
  - unfold at_tax. simpl. destruct (taxon_eqb p X); reflexivity.
  - cbn [at_level all_of filter]. unfold at_tax at 1. cbn [htax]. rewrite map_app.
    assert (Hk : map (fun e => fst (fst e))
                   (flat_map (fun k => at_level X ((HHog o p m ks, f) :: ch) (flagged (fst k)) (snd k)) ks)
                 = filter (at_tax X) (flat_map (fun k => all_of (snd k)) ks)).
    { generalize ((HHog o p m ks, f) :: ch) as ch'. intros ch'. clear - IH.
      induction IH as [|k r Hk Hr IHr]; [reflexivity|]. simpl. rewrite map_app, filter_app, Hk, IHr. reflexivity. }
    rewrite Hk. destruct (taxon_eqb p X); reflexivity.
Qed.

Lemma filter_flat_map {X Y} (p : Y -> bool) (f : X -> list Y) l :
  filter p (flat_map f l) = flat_map (fun x => filter p (f x)) l.
Proof. induction l as [|x r IH]; simpl; [reflexivity|]. now rewrite filter_app, IH. Qed.

Lemma genome_refs_filter fo X :
  genome_refs fo X = map href (filter (at_tax X) (all_nodes_of fo)).
Proof.
  unfold genome_refs, genome_nodes, all_nodes_of.
  rewrite filter_flat_map. rewrite <- (map_map (fun e => fst (fst e)) href).
  f_equal. induction (fo_roots fo) as [|h r IH]; [reflexivity|].
  simpl. rewrite map_app, IH. f_equal. apply at_level_filter.
Qed.

(* ---------- distinct references ---------- *)
Lemma nodup_nat_NoDup l : nodup_nat l = true -> NoDup l.
Proof.
  induction l as [|x r IH]; simpl; [constructor|]. rewrite andb_true_iff, negb_true_iff.
  intros [Hx Hr]. constructor; auto. intros Hin.
  assert (E : existsb (Nat.eqb x) r = true) by (apply existsb_exists; exists x; split; auto; apply Nat.eqb_refl).
  congruence.
Qed.

Lemma nodupb_NoDup' l : nodupb l = true -> NoDup l.
Proof.
  induction l as [|x r IH]; simpl; [constructor|]. rewrite andb_true_iff, negb_true_iff.
  intros [Hx Hr]. constructor; auto. intros Hin.
  assert (E : existsb (String.eqb x) r = true) by (apply existsb_exists; exists x; split; auto; apply String.eqb_refl).
  congruence.
Qed.

Definition oid_of (h : hog) : list nat := match h with HHog o _ _ _ => [o] | _ => [] end.
Definition gid_of (h : hog) : list string := match h with HGene g _ => [g] | _ => [] end.

Lemma refs_nodup (l : list hog) :
  NoDup (flat_map oid_of l) -> NoDup (flat_map gid_of l) -> NoDup (map href l).
Proof.
  induction l as [|x r IH]; intros Ho Hg; simpl; [constructor|].
  destruct x as [g p|o p m ks]; simpl in *.
  - inversion Hg as [|? ? Hn Hg']; subst. constructor; auto.
    intros Hin. apply in_map_iff in Hin as (y & Hy & Hyr). apply Hn.
    apply in_flat_map. exists y. split; auto. destruct y; simpl in Hy; inversion Hy. left. reflexivity.
  - inversion Ho as [|? ? Hn Ho']; subst. constructor; auto.
    intros Hin. apply in_map_iff in Hin as (y & Hy & Hyr). apply Hn.
    apply in_flat_map. exists y. split; auto. destruct y; simpl in Hy; inversion Hy. left. reflexivity.
Qed.

Lemma wfb_refs t fo : wfbc t fo = true -> NoDup (map href (all_nodes_of fo)).
Proof.
  unfold wfbc. rewrite !andb_true_iff. intros ((((_ & _) & _) & Ho) & Hg).
  apply refs_nodup; [apply nodup_nat_NoDup; exact Ho|apply nodupb_NoDup'; exact Hg].
Qed.

Lemma NoDup_map_filter {X Y} (f : X -> Y) (p : X -> bool) l : NoDup (map f l) -> NoDup (map f (filter p l)).
Proof.
  induction l as [|x r IH]; simpl; intros H; [constructor|].
  inversion H as [|? ? Hn Hr]; subst. destruct (p x); simpl; auto.
  constructor; auto. intros Hin. apply Hn. apply in_map_iff in Hin as (y & Hy & Hyr).
  apply filter_In in Hyr as [Hyr _]. apply in_map_iff. eauto.
Qed.

Lemma genome_refs_nodup t fo X : wfbc t fo = true -> NoDup (genome_refs fo X).
Proof. intros H. rewrite genome_refs_filter. apply NoDup_map_filter. eapply wfb_refs; eauto. Qed.

Lemma NoDup_map_inj_in {X Y} (f : X -> Y) l x y :
  NoDup (map f l) -> In x l -> In y l -> f x = f y -> x = y.
Proof.
  induction l as [|z r IH]; intros Hn Hx Hy E; [contradiction|].
  simpl in Hn. inversion Hn as [|? ? Hz Hr]; subst.
  destruct Hx as [->|Hx], Hy as [->|Hy]; auto.
  - exfalso. apply Hz. rewrite E. apply in_map. exact Hy.
  - exfalso. apply Hz. rewrite <- E. apply in_map. exact Hx.
Qed.

(* ---------- topmost nodes at A are all nodes at A ---------- *)
Lemma anodes_filter t A h : wf_node t h = true -> anodes A h = filter (at_tax A) (all_of h).
Proof.
  induction h as [g p|o p m ks IH] using hog_ind'; intros Hwf.
  - unfold at_tax. simpl. destruct (taxon_eqb p A); reflexivity.
  - cbn [anodes all_of filter htax]. unfold at_tax at 1. cbn [htax].
    destruct (taxon_eqb p A) eqn:E.
    + f_equal. symmetry. apply taxon_eqb_eq in E.
      rewrite filter_flat_map. apply flat_map_nil_all. intros k Hk.
      destruct (filter (at_tax A) (all_of (snd k))) as [|x l] eqn:Ef; [reflexivity|]. exfalso.
      assert (Hx : In x (filter (at_tax A) (all_of (snd k)))) by (rewrite Ef; left; reflexivity).
      apply filter_In in Hx as [Hx Hp]. unfold at_tax in Hp. apply taxon_eqb_eq in Hp.
      eapply (no_A_below t (HHog o p m ks) A Hwf E k x); eauto.
    + rewrite filter_flat_map. apply flat_map_Forall_ext. rewrite Forall_forall in *. intros k Hk.
      apply IH; auto. eapply (wf_kids t (HHog o p m ks)); eauto.
Qed.

Definition ANs (A : taxon) (fo : forest) : list hog := flat_map (anodes A) (fo_roots fo).

Lemma ANs_filter t fo A : wfbc t fo = true -> ANs A fo = filter (at_tax A) (all_nodes_of fo).
Proof.
  intros Hwf. unfold ANs, all_nodes_of. rewrite filter_flat_map.
  apply flat_map_Forall_ext. pose proof (wfb_roots _ _ Hwf) as Hr. rewrite Forall_forall in *.
  intros h Hh. eapply anodes_filter; eauto.
Qed.

Lemma genome_refs_ANs t fo A : wfbc t fo = true -> genome_refs fo A = map href (ANs A fo).
Proof. intros H. rewrite genome_refs_filter, (ANs_filter t); auto. Qed.

(* ---------- the up-map, decomposed ---------- *)
Definition Rnone (A D : taxon) (fo : forest) : list entry :=
  flat_map (fun h => map tag_none (gains A D false h)) (fo_roots fo).
Definition Rsome (A D : taxon) (fo : forest) : list entry :=
  flat_map (fun ho => map (tag ho) (dn D false ho)) (ANs A fo).

Lemma upmap_decomp t fo A D : wfbc t fo = true -> A <> D ->
  Permutation (upmap fo A D) (Rnone A D fo ++ Rsome A D fo).
Proof.
  intros Hwf HAD. rewrite upmap_td. unfold Rnone, Rsome, ANs.
  rewrite flat_map_flat_map'.
  eapply Permutation_trans; [|apply Permutation_flat_map_app].
  apply Permutation_flat_map_ext. pose proof (wfb_roots _ _ Hwf) as Hr. rewrite Forall_forall in *.
  intros h Hh. apply (td_decomp t); auto.
Qed.

Fixpoint nfalse (l : list (hog * bool)) : nat :=
  match l with [] => 0 | (_, b) :: r => (if b then 0 else 1) + nfalse r end.
Fixpoint ntrue (l : list (hog * bool)) : nat :=
  match l with [] => 0 | (_, b) :: r => (if b then 1 else 0) + ntrue r end.

Lemma retK_tag ho l : flat_map retK (map (tag ho) l) = repeat (href ho) (nfalse l).
Proof. induction l as [|[x b] r IH]; simpl; [reflexivity|]. destruct b; simpl; now rewrite IH. Qed.
Lemma dupK_tag ho l : flat_map dupK (map (tag ho) l) = repeat (href ho) (ntrue l).
Proof. induction l as [|[x b] r IH]; simpl; [reflexivity|]. destruct b; simpl; now rewrite IH. Qed.
Lemma retK_none l : flat_map retK (map tag_none l) = [].
Proof. induction l as [|[x b] r IH]; simpl; auto. Qed.
Lemma dupK_none l : flat_map dupK (map tag_none l) = [].
Proof. induction l as [|[x b] r IH]; simpl; auto. Qed.

Lemma sot_counts l : sot (map snd l) -> nfalse l <= 1 /\ (1 <= nfalse l -> ntrue l = 0).
Proof.
  intros [H|H].
  - destruct l as [|[x b] [|e r]]; simpl in *; try lia. destruct b; simpl; lia.
  - assert (E : nfalse l = 0).
    { induction l as [|[x b] r IH]; simpl in *; [reflexivity|]. apply andb_true_iff in H as [Hb Hr]. subst b. auto. }
    lia.
Qed.

Lemma flat_map_retK_Rsome A D fo :
  flat_map retK (Rsome A D fo) = flat_map (fun ho => repeat (href ho) (nfalse (dn D false ho))) (ANs A fo).
Proof.
  unfold Rsome. rewrite flat_map_flat_map'. apply flat_map_Forall_ext. apply Forall_forall. intros ho _. apply retK_tag.
Qed.
Lemma flat_map_dupK_Rsome A D fo :
  flat_map dupK (Rsome A D fo) = flat_map (fun ho => repeat (href ho) (ntrue (dn D false ho))) (ANs A fo).
Proof.
  unfold Rsome. rewrite flat_map_flat_map'. apply flat_map_Forall_ext. apply Forall_forall. intros ho _. apply dupK_tag.
Qed.
Lemma flat_map_retK_Rnone A D fo : flat_map retK (Rnone A D fo) = [].
Proof.
  unfold Rnone. rewrite flat_map_flat_map'. apply flat_map_nil_all. intros h _. apply retK_none.
Qed.
Lemma flat_map_dupK_Rnone A D fo : flat_map dupK (Rnone A D fo) = [].
Proof.
  unfold Rnone. rewrite flat_map_flat_map'. apply flat_map_nil_all. intros h _. apply dupK_none.
Qed.

Lemma nodup_repeat_flat_map (l : list hog) (c : hog -> nat) :
  NoDup (map href l) -> (forall ho, In ho l -> c ho <= 1) ->
  NoDup (flat_map (fun ho => repeat (href ho) (c ho)) l).
Proof.
  induction l as [|x r IH]; intros Hn Hc; simpl; [constructor|].
  inversion Hn as [|? ? Hx Hr]; subst.
  assert (IHr := IH Hr (fun ho H => Hc ho (or_intror H))).
  assert (Hcx := Hc x (or_introl eq_refl)).
  destruct (c x) as [|[|n]]; simpl; auto; [|lia].
  constructor; auto. intros Hin. apply in_flat_map in Hin as (y & Hy & Hin).
  apply repeat_spec in Hin. apply Hx. rewrite Hin. apply in_map. exact Hy.
Qed.

Lemma in_repeat_flat_map (l : list hog) (c : hog -> nat) a :
  In a (flat_map (fun ho => repeat (href ho) (c ho)) l) <-> exists ho, In ho l /\ a = href ho /\ 1 <= c ho.
Proof.
  rewrite in_flat_map. split.
  - intros (ho & Hho & Hin). exists ho. split; auto. split; [now apply repeat_spec in Hin|].
    destruct (c ho); simpl in Hin; [contradiction|lia].
  - intros (ho & Hho & -> & Hc). exists ho. split; auto. destruct (c ho); [lia|]. left. reflexivity.
Qed.

Lemma ANs_wf t fo A ho : wfbc t fo = true -> In ho (ANs A fo) -> wf_node t ho = true.
Proof.
  intros Hwf Hin. unfold ANs in Hin. apply in_flat_map in Hin as (r & Hr & Hin).
  pose proof (wfb_roots _ _ Hwf) as Hroots. rewrite Forall_forall in Hroots. specialize (Hroots r Hr).
  clear Hr. revert Hroots Hin. induction r as [g p|o p m ks IH] using hog_ind'; intros Hw Hin.
  - simpl in Hin. destruct (taxon_eqb p A); [|contradiction]. destruct Hin as [<-|[]]. exact Hw.
  - cbn [anodes htax] in Hin. destruct (taxon_eqb p A).
    + destruct Hin as [<-|[]]. exact Hw.
    + apply in_flat_map in Hin as (k & Hk & Hin). rewrite Forall_forall in IH.
      eapply IH; eauto. eapply (wf_kids t (HHog o p m ks)); eauto.
Qed.

(* ---------- C05 ---------- *)
Theorem partition t fo A D :
  wfbc t fo = true -> A <> D ->
  let m := hogmap fo A D in
  Permutation (genome_refs fo D)
              (hm_gain m ++ map snd (hm_retained m) ++ List.concat (map snd (hm_dup m))) /\
  Permutation (genome_refs fo A)
              (hm_loss m ++ map fst (hm_retained m) ++ map fst (hm_dup m)) /\
  NoDup (genome_refs fo D) /\ NoDup (genome_refs fo A).
Proof.
  intros Hwf HAD m. subst m. unfold hogmap. rewrite clusters_unfold.
  set (R := upmap fo A D).
  pose proof (upmap_decomp t fo A D Hwf HAD) as Hdec. fold R in Hdec.
  (* facts about the keys *)
  assert (HretK : Permutation (flat_map retK R)
                    (flat_map (fun ho => repeat (href ho) (nfalse (dn D false ho))) (ANs A fo))).
  { rewrite (Permutation_flat_map retK Hdec), flat_map_app, flat_map_retK_Rnone, flat_map_retK_Rsome. apply Permutation_refl. }
  assert (HdupK : Permutation (flat_map dupK R)
                    (flat_map (fun ho => repeat (href ho) (ntrue (dn D false ho))) (ANs A fo))).
  { rewrite (Permutation_flat_map dupK Hdec), flat_map_app, flat_map_dupK_Rnone, flat_map_dupK_Rsome. apply Permutation_refl. }
  assert (HAN : NoDup (map href (ANs A fo))).
  { rewrite <- (genome_refs_ANs t); auto. eapply genome_refs_nodup; eauto. }
  assert (Hsot : forall ho, In ho (ANs A fo) -> nfalse (dn D false ho) <= 1 /\
                                               (1 <= nfalse (dn D false ho) -> ntrue (dn D false ho) = 0)).
  { intros ho Hho. apply sot_counts. eapply dn_sot. eapply ANs_wf; eauto. }
  assert (HretNoDup : NoDup (flat_map retK R)).
  { eapply Permutation_NoDup; [apply Permutation_sym; exact HretK|].
    apply nodup_repeat_flat_map; auto. intros ho Hho. apply Hsot. exact Hho. }
  pose proof (fold_cstep R [] [] [] []) as Hf. simpl in Hf. specialize (Hf HretNoDup (NoDup_nil _)).
  destruct (fold_left cstep R ([], [], [], [])) as [[[g rt] du] comp].
  destruct Hf as (H1 & Hp & Hq & H2 & H3 & H4 & H5 & H6 & H7). cbn [hm_gain hm_retained hm_dup hm_loss].
  split; [|split; [|split]].
  - (* descendant side *)
    assert (E : genome_refs fo D = map (fun e : entry => href (fst e)) R).
    { unfold R, upmap, genome_refs. rewrite map_map. apply map_ext. intros [[hy fl] ch]. reflexivity. }
    rewrite E, H1, H2. eapply Permutation_trans; [apply entries_partition|].
    apply Permutation_app_head. apply Permutation_app_head. apply Permutation_sym. exact H4.
  - (* ancestor side *)
    set (K := map fst rt ++ map fst du).
    assert (HK : forall a, In a comp <-> In a K).
    { intros a. unfold K. rewrite in_app_iff. fold (keys rt). fold (keys du). rewrite H7, H3, H6. simpl. tauto. }
    assert (Hfilter : filter (fun r => negb (mem_ref r comp)) (genome_refs fo A)
                      = filter (fun r => negb (mem_ref r K)) (genome_refs fo A)).
    { apply filter_ext. intros a. f_equal.
      destruct (mem_ref a comp) eqn:E1, (mem_ref a K) eqn:E2; auto.
      - apply mem_ref_in in E1. apply HK in E1. apply mem_ref_in in E1. congruence.
      - apply mem_ref_in in E2. apply HK in E2. apply mem_ref_in in E2. congruence. }
    rewrite Hfilter. apply split_by_membership.
    + eapply genome_refs_nodup; eauto.
    + unfold K. fold (keys rt). fold (keys du). apply nodup_app_intro; auto.
      * rewrite H3. exact HretNoDup.
      * intros a Ha Hb. rewrite H3 in Ha. simpl in Ha. apply H6 in Hb as [[]|Hb].
        apply (Permutation_in _ HretK) in Ha. apply (Permutation_in _ HdupK) in Hb.
        apply in_repeat_flat_map in Ha as (h1 & Hh1 & E1 & C1).
        apply in_repeat_flat_map in Hb as (h2 & Hh2 & E2 & C2).
        assert (h1 = h2) by (eapply (NoDup_map_inj_in href); eauto; congruence). subst h2.
        destruct (Hsot h1 Hh1) as [_ Hz]. specialize (Hz C1). lia.
    + intros a Ha. unfold K in Ha. fold (keys rt) in Ha. fold (keys du) in Ha. rewrite in_app_iff, H3, H6 in Ha. simpl in Ha.
      rewrite (genome_refs_ANs t); auto.
      destruct Ha as [Ha|[[]|Ha]].
      * apply (Permutation_in _ HretK) in Ha. apply in_repeat_flat_map in Ha as (h1 & Hh1 & -> & _). now apply in_map.
      * apply (Permutation_in _ HdupK) in Ha. apply in_repeat_flat_map in Ha as (h1 & Hh1 & -> & _). now apply in_map.
  - eapply genome_refs_nodup; eauto.
  - eapply genome_refs_nodup; eauto.
Qed.

(* ---------- C06 ---------- *)
Lemma gainS_none l a : In a (flat_map gainS (map tag_none l)) <-> exists hy b, In (hy, b) l /\ a = href hy.
Proof.
  induction l as [|[x b] r IH]; simpl.
  - split; [contradiction|]. intros (hy & b & [] & _).
  - rewrite IH. split.
    + intros [<-|(hy & b' & H & E)]; [exists x, b; auto|exists hy, b'; auto].
    + intros (hy & b' & [H|H] & E); [inversion H; subst; auto|right; eauto].
Qed.
Lemma gainS_tag ho l : flat_map gainS (map (tag ho) l) = [].
Proof. induction l as [|[x b] r IH]; simpl; auto. Qed.
Lemma retP_none l : flat_map retP (map tag_none l) = [].
Proof. induction l as [|[x b] r IH]; simpl; auto. Qed.
Lemma dupP_none l : flat_map dupP (map tag_none l) = [].
Proof. induction l as [|[x b] r IH]; simpl; auto. Qed.
Lemma retP_tag ho l k v : In (k, v) (flat_map retP (map (tag ho) l)) <-> k = href ho /\ exists hy, In (hy, false) l /\ v = href hy.
Proof.
  induction l as [|[x b] r IH]; simpl.
  - split; [contradiction|]. intros (_ & hy & [] & _).
  - destruct b; simpl.
    + rewrite IH. split.
      * intros (E & hy & H & Ev). split; auto. exists hy. auto.
      * intros (E & hy & [H|H] & Ev); [discriminate|]. split; auto. eauto.
    + rewrite IH. split.
      * intros [H|(E & hy & H & Ev)]; [inversion H; subst; split; auto; exists x; auto|split; auto; exists hy; auto].
      * intros (E & hy & [H|H] & Ev); [inversion H; subst; left; reflexivity|right; split; auto; eauto].
Qed.
Lemma dupP_tag ho l k v : In (k, v) (flat_map dupP (map (tag ho) l)) <-> k = href ho /\ exists hy, In (hy, true) l /\ v = href hy.
Proof.
  induction l as [|[x b] r IH]; simpl.
  - split; [contradiction|]. intros (_ & hy & [] & _).
  - destruct b; simpl.
    + rewrite IH. split.
      * intros [H|(E & hy & H & Ev)]; [inversion H; subst; split; auto; exists x; auto|split; auto; exists hy; auto].
      * intros (E & hy & [H|H] & Ev); [inversion H; subst; left; reflexivity|right; split; auto; eauto].
    + rewrite IH. split.
      * intros (E & hy & H & Ev). split; auto. exists hy. auto.
      * intros (E & hy & [H|H] & Ev); [discriminate|]. split; auto. eauto.
Qed.

Lemma counts_nil l : nfalse l = 0 -> ntrue l = 0 -> l = [].
Proof. destruct l as [|[x b] r]; auto. destruct b; simpl; lia. Qed.
Lemma nfalse_in l : 1 <= nfalse l <-> exists hy, In (hy, false) l.
Proof.
  induction l as [|[x b] r IH]; simpl.
  - split; [lia|]. intros (hy & []).
  - destruct b; simpl.
    + rewrite IH. split; [intros (hy & H); eauto|intros (hy & [H|H]); [discriminate|eauto]].
    + split; [exists x; auto|lia].
Qed.
Lemma ntrue_in l : 1 <= ntrue l <-> exists hy, In (hy, true) l.
Proof.
  induction l as [|[x b] r IH]; simpl.
  - split; [lia|]. intros (hy & []).
  - destruct b; simpl.
    + split; [exists x; auto|lia].
    + rewrite IH. split; [intros (hy & H); eauto|intros (hy & [H|H]); [discriminate|eauto]].
Qed.

Theorem meaning t fo A D :
  wfbc t fo = true -> A <> D ->
  let m := hogmap fo A D in
  (forall a, In a (hm_gain m) <->
             exists r hy b, In r (fo_roots fo) /\ In (hy, b) (gains A D false r) /\ a = href hy) /\
  (forall ho y, In ho (ANs A fo) ->
     (In (href ho, y) (hm_retained m) <-> exists hy, In (hy, false) (dn D false ho) /\ y = href hy)) /\
  (forall ho y, In ho (ANs A fo) ->
     (In (href ho, y) (dpairs (hm_dup m)) <-> exists hy, In (hy, true) (dn D false ho) /\ y = href hy)) /\
  (forall a, In a (hm_loss m) <-> exists ho, In ho (ANs A fo) /\ a = href ho /\ dn D false ho = []) /\
  hm_ndup m = list_sum (map (fun e => List.length (snd e) - 1) (hm_dup m)).
Proof.
  intros Hwf HAD m. subst m. unfold hogmap. rewrite clusters_unfold.
  set (R := upmap fo A D).
  pose proof (upmap_decomp t fo A D Hwf HAD) as Hdec. fold R in Hdec.
  assert (HretK : Permutation (flat_map retK R)
                    (flat_map (fun ho => repeat (href ho) (nfalse (dn D false ho))) (ANs A fo))).
  { rewrite (Permutation_flat_map retK Hdec), flat_map_app, flat_map_retK_Rnone, flat_map_retK_Rsome. apply Permutation_refl. }
  assert (HdupK : Permutation (flat_map dupK R)
                    (flat_map (fun ho => repeat (href ho) (ntrue (dn D false ho))) (ANs A fo))).
  { rewrite (Permutation_flat_map dupK Hdec), flat_map_app, flat_map_dupK_Rnone, flat_map_dupK_Rsome. apply Permutation_refl. }
  assert (HAN : NoDup (map href (ANs A fo))).
  { rewrite <- (genome_refs_ANs t); auto. eapply genome_refs_nodup; eauto. }
  assert (Hsot : forall ho, In ho (ANs A fo) -> nfalse (dn D false ho) <= 1 /\
                                               (1 <= nfalse (dn D false ho) -> ntrue (dn D false ho) = 0)).
  { intros ho Hho. apply sot_counts. eapply dn_sot. eapply ANs_wf; eauto. }
  assert (HretNoDup : NoDup (flat_map retK R)).
  { eapply Permutation_NoDup; [apply Permutation_sym; exact HretK|].
    apply nodup_repeat_flat_map; auto. intros ho Hho. apply Hsot. exact Hho. }
  pose proof (fold_cstep R [] [] [] []) as Hf. simpl in Hf. specialize (Hf HretNoDup (NoDup_nil _)).
  destruct (fold_left cstep R ([], [], [], [])) as [[[g rt] du] comp].
  destruct Hf as (H1 & Hp & Hq & H2 & H3 & H4 & H5 & H6 & H7). cbn [hm_gain hm_retained hm_dup hm_loss hm_ndup].
  split; [|split; [|split; [|split]]].
  - (* gain *)
    intros a. rewrite H1. simpl.
    assert (E : In a (flat_map gainS R) <-> In a (flat_map gainS (Rnone A D fo ++ Rsome A D fo))).
    { split; apply Permutation_in; [|apply Permutation_sym]; apply Permutation_flat_map; exact Hdec. }
    rewrite E, flat_map_app, in_app_iff. unfold Rnone, Rsome. rewrite !flat_map_flat_map'. split.
    + intros [H|H].
      * apply in_flat_map in H as (r & Hr & H). apply gainS_none in H as (hy & b & Hin & Ea). eauto 8.
      * apply in_flat_map in H as (ho & _ & H). rewrite gainS_tag in H. contradiction.
    + intros (r & hy & b & Hr & Hin & Ea). left. apply in_flat_map. exists r. split; auto.
      apply gainS_none. eauto.
  - (* retained *)
    intros ho y Hho. rewrite Hp. simpl.
    assert (E : In (href ho, y) (flat_map retP R) <-> In (href ho, y) (flat_map retP (Rnone A D fo ++ Rsome A D fo))).
    { split; apply Permutation_in; [|apply Permutation_sym]; apply Permutation_flat_map; exact Hdec. }
    rewrite E, flat_map_app, in_app_iff. unfold Rnone, Rsome. rewrite !flat_map_flat_map'. split.
    + intros [H|H].
      * apply in_flat_map in H as (r & _ & H). rewrite retP_none in H. contradiction.
      * apply in_flat_map in H as (ho' & Hho' & H). apply retP_tag in H as (Ek & hy & Hin & Ev).
        assert (ho = ho') by (eapply (NoDup_map_inj_in href); eauto). subst ho'. eauto.
    + intros (hy & Hin & Ev). right. apply in_flat_map. exists ho. split; auto. apply retP_tag. eauto.
  - (* duplicated *)
    intros ho y Hho.
    assert (E : In (href ho, y) (dpairs du) <-> In (href ho, y) (flat_map dupP (Rnone A D fo ++ Rsome A D fo))).
    { split; intros H.
      - apply (Permutation_in _ Hq) in H. simpl in H. revert H. apply Permutation_in. apply Permutation_flat_map. exact Hdec.
      - apply (Permutation_in _ (Permutation_sym Hq)). simpl. revert H. apply Permutation_in. apply Permutation_sym.
        apply Permutation_flat_map. exact Hdec. }
    rewrite E, flat_map_app, in_app_iff. unfold Rnone, Rsome. rewrite !flat_map_flat_map'. split.
    + intros [H|H].
      * apply in_flat_map in H as (r & _ & H). rewrite dupP_none in H. contradiction.
      * apply in_flat_map in H as (ho' & Hho' & H). apply dupP_tag in H as (Ek & hy & Hin & Ev).
        assert (ho = ho') by (eapply (NoDup_map_inj_in href); eauto). subst ho'. eauto.
    + intros (hy & Hin & Ev). right. apply in_flat_map. exists ho. split; auto. apply dupP_tag. eauto.
  - (* lost *)
    intros a. rewrite filter_In, negb_true_iff. rewrite (genome_refs_ANs t); auto. rewrite in_map_iff.
    assert (Hcomp : In a comp <-> exists ho, In ho (ANs A fo) /\ a = href ho /\
                                             (1 <= nfalse (dn D false ho) \/ 1 <= ntrue (dn D false ho))).
    { rewrite H7. simpl. split.
      - intros [[]|[H|H]].
        + apply (Permutation_in _ HretK) in H. apply in_repeat_flat_map in H as (ho & Hh & E & C). eauto 6.
        + apply (Permutation_in _ HdupK) in H. apply in_repeat_flat_map in H as (ho & Hh & E & C). eauto 6.
      - intros (ho & Hh & E & [C|C]).
        + right. left. apply (Permutation_in _ (Permutation_sym HretK)). apply in_repeat_flat_map. eauto.
        + right. right. apply (Permutation_in _ (Permutation_sym HdupK)). apply in_repeat_flat_map. eauto. }
    split.
    + intros [(ho & Ea & Hho) Hm]. exists ho. split; auto. split; auto.
      apply counts_nil.
      * destruct (nfalse (dn D false ho)) eqn:E; auto. exfalso.
        assert (In a comp) by (apply Hcomp; exists ho; repeat split; auto; lia).
        apply mem_ref_in in H. congruence.
      * destruct (ntrue (dn D false ho)) eqn:E; auto. exfalso.
        assert (In a comp) by (apply Hcomp; exists ho; repeat split; auto; lia).
        apply mem_ref_in in H. congruence.
    + intros (ho & Hho & Ea & Hnil). split; [exists ho; auto|].
      destruct (mem_ref a comp) eqn:E; auto. exfalso. apply mem_ref_in in E. apply Hcomp in E as (ho' & Hho' & Ea' & C).
      assert (ho = ho') by (eapply (NoDup_map_inj_in href); eauto; congruence). subst ho'.
      rewrite Hnil in C. simpl in C. lia.
  - rewrite ndup_sum. reflexivity.
Qed.

Lemma concat_length {X} (l : list (list X)) : List.length (List.concat l) = list_sum (map (@List.length X) l).
Proof. induction l as [|x r IH]; simpl; [reflexivity|]. now rewrite app_length, IH. Qed.

Theorem sizes t fo A D :
  wfbc t fo = true -> A <> D ->
  let m := hogmap fo A D in
  List.length (genome_refs fo D) =
    List.length (hm_gain m) + List.length (hm_retained m) + list_sum (map (fun e => List.length (snd e)) (hm_dup m)) /\
  List.length (genome_refs fo A) =
    List.length (hm_loss m) + List.length (hm_retained m) + List.length (hm_dup m).
Proof.
  intros Hwf HAD m. destruct (partition t fo A D Hwf HAD) as (P1 & P2 & _ & _). fold m in P1, P2.
  apply Permutation_length in P1, P2. rewrite !app_length, !map_length in P1, P2.
  rewrite concat_length, map_map in P1. rewrite map_length in P2. split; lia.
Qed.
