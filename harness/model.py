"""Calling the extracted model (driver/driver) on batches of requests."""
import os
import subprocess
import sx
from sx import Q

HERE = os.path.dirname(os.path.abspath(__file__))
DRIVER = os.path.join(HERE, '..', 'driver', 'driver')


def _run_chunk(part):
    text = '\n'.join(sx.dumps(r) for r in part) + '\n'
    p = subprocess.run([DRIVER], input=text.encode('utf-8'), stdout=subprocess.PIPE, stderr=subprocess.PIPE)
    if p.returncode != 0:
        raise RuntimeError('driver failed: %s' % p.stderr.decode()[:500])
    lines = [l for l in p.stdout.decode('utf-8').split('\n') if l.strip()]
    if len(lines) != len(part):
        raise RuntimeError('driver returned %d replies for %d requests' % (len(lines), len(part)))
    return [sx.loads(l) for l in lines]


def run_requests(reqs, chunk=400):
    """reqs: list of s-expression values; returns the list of parsed replies (driver processes run in parallel)"""
    from concurrent.futures import ThreadPoolExecutor
    if not reqs:
        return []
    workers = int(os.environ.get('VERIF_JOBS', '16'))
    size = max(1, min(chunk, (len(reqs) + workers - 1) // workers))
    parts = [reqs[i:i + size] for i in range(0, len(reqs), size)]
    with ThreadPoolExecutor(max_workers=workers) as ex:
        results = list(ex.map(_run_chunk, parts))
    return [r for part in results for r in part]


def load_req(case):
    return ['load_oma' if getattr(case, 'oma', False) else 'load', case.use_internal, case.tree.sx(), case.doc_sx()]


def hist_sx(h):
    if h[0] == 'G':
        return ['G', Q(h[1]), list(h[2])]
    return ['H', list(h[1]), [[hist_sx(l[1])] if l[0] == 'O' else [hist_sx(m) for m in l[1]] for l in h[2]]]


def consistent_req(case):
    """does the extracted, proved-sound check SpellCheck.consistentb accept the case (with its ordered histories)?"""
    return ['consistent', case.use_internal, case.tree.sx(), case.doc_sx(), [hist_sx(h) for h in case.ohists]]


def reply_forest(rep):
    """('ok', dict) | ('err', kind) | ('taxerr', kind) from a load reply"""
    if rep[0] == 'ok':
        d = {}
        for part in rep[1:]:
            d[part[0]] = part[1:]
        return ('ok', d)
    return (rep[0], rep[1])
