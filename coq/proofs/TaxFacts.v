(* TaxFacts.v — lemmas about taxa-as-paths: equality test, depth annotation, path_up, MRCA. *)
From Coq Require Import List Arith Bool String Ascii Lia.
From PyHam Require Import Tax.
Import ListNotations.

(* ---------- induction principle for the nested tree type ---------- *)
Fixpoint stree_ind' (P : stree -> Prop) (H : forall n ks, Forall P ks -> P (SNode n ks)) (t : stree) : P t :=
  match t with
  | SNode n ks =>
      H n ks ((fix go (l : list stree) : Forall P l :=
                 match l with
                 | [] => Forall_nil P
                 | x :: r => Forall_cons x (stree_ind' P H x) (go r)
                 end) ks)
  end.

(* ---------- taxon equality ---------- *)
Lemma taxon_eqb_refl p : taxon_eqb p p = true.
Proof. induction p as [|a p IH]; simpl; [reflexivity|]. now rewrite Nat.eqb_refl, IH. Qed.

Lemma taxon_eqb_eq p q : taxon_eqb p q = true <-> p = q.
Proof.
  split.
  - revert q; induction p as [|a p IH]; intros [|b q] Hq; simpl in Hq; try discriminate; [reflexivity|].
    apply andb_true_iff in Hq as [Hab Hpq]. apply Nat.eqb_eq in Hab. f_equal; auto.
  - intros ->. apply taxon_eqb_refl.
Qed.

Lemma taxon_eqb_neq p q : taxon_eqb p q = false <-> p <> q.
Proof.
  split.
  - intros Hf Heq. apply taxon_eqb_eq in Heq. congruence.
  - intros Hn. destruct (taxon_eqb p q) eqn:E; [|reflexivity]. apply taxon_eqb_eq in E. contradiction.
Qed.

Lemma taxon_eqb_sym p q : taxon_eqb p q = taxon_eqb q p.
Proof.
  destruct (taxon_eqb p q) eqn:E.
  - apply taxon_eqb_eq in E. subst. now rewrite taxon_eqb_refl.
  - symmetry. apply taxon_eqb_neq. apply taxon_eqb_neq in E. congruence.
Qed.

(* ---------- nodes / annot_depth ---------- *)
Fixpoint nodes_list (k : nat) (p : taxon) (l : list stree) : list (taxon * stree) :=
  match l with
  | [] => []
  | c :: r => nodes (k :: p) c ++ nodes_list (S k) p r
  end.

Lemma nodes_unfold p n ks : nodes p (SNode n ks) = (p, SNode n ks) :: nodes_list 0 p ks.
Proof.
  simpl. f_equal. generalize 0. induction ks as [|c r IH]; intros k; simpl; [reflexivity|]. now rewrite IH.
Qed.

Fixpoint annot_list (d k : nat) (p : taxon) (l : list stree) : list (taxon * nat) :=
  match l with
  | [] => []
  | c :: r => annot_depth (S d) (k :: p) c ++ annot_list d (S k) p r
  end.

Lemma annot_unfold d p n ks : annot_depth d p (SNode n ks) = (p, d) :: annot_list d 0 p ks.
Proof.
  simpl. f_equal. generalize 0. induction ks as [|c r IH]; intros k; simpl; [reflexivity|]. now rewrite IH.
Qed.

(* every annotated depth is the initial depth plus the number of edges walked *)
Lemma annot_depth_spec t : forall d p q e,
  In (q, e) (annot_depth d p t) -> e + List.length p = d + List.length q.
Proof.
  induction t as [n ks IH] using stree_ind'. intros d p q e Hin.
  rewrite annot_unfold in Hin. destruct Hin as [Heq|Hin].
  - inversion Heq; subst. lia.
  - revert Hin. generalize 0 as k. induction ks as [|c r IHr]; intros k Hin; simpl in Hin; [contradiction|].
    inversion IH as [|? ? Hc Hr]; subst.
    apply in_app_or in Hin as [Hin|Hin].
    + apply Hc in Hin. simpl in Hin. lia.
    + eapply IHr; eauto.
Qed.

(* the annotated nodes are exactly the nodes of the tree, in the same order *)
Lemma annot_depth_nodes t : forall d p, map fst (annot_depth d p t) = map fst (nodes p t).
Proof.
  induction t as [n ks IH] using stree_ind'. intros d p.
  rewrite annot_unfold, nodes_unfold. simpl. f_equal.
  generalize 0 as k. induction ks as [|c r IHr]; intros k; simpl; [reflexivity|].
  inversion IH as [|? ? Hc Hr]; subst.
  rewrite !map_app. f_equal; auto.
Qed.

(* ---------- path_up ---------- *)
(* the nodes strictly between s ++ anc and anc, youngest first *)
Fixpoint between (s anc : taxon) : list taxon :=
  match s with
  | [] => []
  | _ :: s' => match s' with [] => [] | _ => (s' ++ anc) :: between s' anc end
  end.

Lemma app_neq_self (s anc : taxon) : s <> [] -> s ++ anc <> anc.
Proof.
  intros Hs Heq. apply (f_equal (@List.length nat)) in Heq. rewrite app_length in Heq.
  destruct s; [contradiction|]. simpl in Heq. lia.
Qed.

Lemma path_up_spec s anc : s <> [] -> path_up (s ++ anc) anc = between s anc.
Proof.
  induction s as [|a s IH]; intros Hs; [contradiction|].
  simpl. destruct s as [|b s'].
  - simpl. now rewrite taxon_eqb_refl.
  - assert (Hne : (b :: s') ++ anc <> anc) by (apply app_neq_self; discriminate).
    apply taxon_eqb_neq in Hne. rewrite Hne. f_equal. apply IH. discriminate.
Qed.

Lemma between_length s anc : List.length (between s anc) = List.length s - 1.
Proof.
  induction s as [|a s IH]; simpl; [reflexivity|].
  destruct s as [|b s']; simpl in *; [reflexivity|]. rewrite IH. lia.
Qed.

(* each element of between is a proper suffix of the lower node that has anc as a proper suffix *)
Lemma between_in s anc q :
  In q (between s anc) <-> exists s1 s2, s = s1 ++ s2 /\ s1 <> [] /\ s2 <> [] /\ q = s2 ++ anc.
Proof.
  revert q. induction s as [|a s IH]; intros q; simpl.
  - split; [contradiction|]. intros (s1 & s2 & H & H1 & _). destruct s1; [contradiction|discriminate].
  - destruct s as [|b s'].
    + split; [contradiction|]. intros (s1 & s2 & H & H1 & H2 & _).
      destruct s1 as [|x s1]; [contradiction|]. simpl in H. inversion H as [[Hx Hr]].
      symmetry in Hr. apply app_eq_nil in Hr as [_ Hr]. contradiction.
    + split.
      * intros [Hq|Hq].
        -- exists [a], (b :: s'). repeat split; try discriminate. auto.
        -- apply IH in Hq as (s1 & s2 & H & H1 & H2 & H3). exists (a :: s1), s2. repeat split; auto.
           ++ simpl. now rewrite H.
           ++ discriminate.
      * intros (s1 & s2 & H & H1 & H2 & H3). destruct s1 as [|x s1]; [contradiction|].
        simpl in H. injection H as Hx Hr. destruct s1 as [|y s1].
        -- left. simpl in Hr. subst. reflexivity.
        -- right. apply IH. exists (y :: s1), s2. repeat split; auto. discriminate.
Qed.

(* ---------- lcs ---------- *)
Lemma lcp_prefix_l a b : exists r, a = lcp a b ++ r.
Proof.
  revert b; induction a as [|x a IH]; intros b; simpl.
  - exists []. reflexivity.
  - destruct b as [|y b]; [exists (x :: a); reflexivity|].
    destruct (Nat.eqb x y); [|exists (x :: a); reflexivity].
    destruct (IH b) as [r Hr]. exists r. simpl. now rewrite <- Hr.
Qed.

Lemma lcp_comm a b : lcp a b = lcp b a.
Proof.
  revert b; induction a as [|x a IH]; intros [|y b]; simpl; try reflexivity.
  rewrite (Nat.eqb_sym y x). destruct (Nat.eqb x y) eqn:E; [|reflexivity].
  apply Nat.eqb_eq in E. subst. now rewrite IH.
Qed.

Lemma lcp_app a r : lcp a (a ++ r) = a.
Proof. induction a as [|x a IH]; simpl; [destruct r; reflexivity|]. now rewrite Nat.eqb_refl, IH. Qed.

Lemma lcs_comm p q : lcs p q = lcs q p.
Proof. unfold lcs. now rewrite lcp_comm. Qed.

(* the MRCA of a node and one of its descendants is the node *)
Lemma lcs_suffix a s : lcs a (s ++ a) = a.
Proof. unfold lcs. rewrite rev_app_distr, lcp_app. apply rev_involutive. Qed.

Lemma lcs_refl a : lcs a a = a.
Proof. apply (lcs_suffix a []). Qed.

Lemma lcs_is_suffix_l p q : exists s, p = s ++ lcs p q.
Proof.
  unfold lcs. destruct (lcp_prefix_l (rev p) (rev q)) as [r Hr].
  exists (rev r). rewrite <- rev_app_distr, <- Hr. now rewrite rev_involutive.
Qed.

Lemma anc_or_self_iff a p : anc_or_self a p = true <-> exists s, p = s ++ a.
Proof.
  unfold anc_or_self. rewrite taxon_eqb_eq. split.
  - intros H. destruct (lcs_is_suffix_l p a) as [s Hs]. exists s. rewrite lcs_comm in Hs. now rewrite H in Hs.
  - intros [s ->]. apply lcs_suffix.
Qed.

(* ---------- the node enumeration lists exactly the valid paths ---------- *)
Lemma nodes_list_in l : forall k p q s,
  In (q, s) (nodes_list k p l) <-> exists i c, nth_error l i = Some c /\ In (q, s) (nodes ((k + i) :: p) c).
Proof.
  induction l as [|c l IH]; intros k p q s; simpl.
  - split; [contradiction|]. intros (i & c & H & _). destruct i; discriminate.
  - rewrite in_app_iff, IH. split.
    + intros [H|(i & c' & Hn & Hin)].
      * exists 0, c. rewrite Nat.add_0_r. auto.
      * exists (S i), c'. rewrite Nat.add_succ_r. auto.
    + intros (i & c' & Hn & Hin). destruct i as [|i]; simpl in Hn.
      * inversion Hn; subst. rewrite Nat.add_0_r in Hin. auto.
      * right. exists i, c'. rewrite Nat.add_succ_r in Hin. auto.
Qed.

Lemma nodes_spec t : forall p q s,
  In (q, s) (nodes p t) <-> exists rr, q = rev rr ++ p /\ sub_rev t rr = Some s.
Proof.
  induction t as [n ks IH] using stree_ind'. intros p q s.
  rewrite nodes_unfold. simpl In. rewrite nodes_list_in. split.
  - intros [H|(i & c & Hn & Hin)].
    + inversion H; subst. exists []. auto.
    + rewrite Forall_forall in IH. apply nth_error_In in Hn as Hc. apply (IH c Hc) in Hin as (rr & Hq & Hs).
      exists (i :: rr). simpl. rewrite Hn. split; auto. rewrite Hq, <- app_assoc. reflexivity.
  - intros (rr & Hq & Hs). destruct rr as [|i rr]; simpl in *.
    + left. inversion Hs; subst. reflexivity.
    + right. destruct (nth_error ks i) as [c|] eqn:Hn; [|discriminate].
      exists i, c. split; auto. rewrite Forall_forall in IH. apply (IH c (nth_error_In _ _ Hn)).
      exists rr. split; auto. rewrite Hq, <- app_assoc. reflexivity.
Qed.

Lemma all_nodes_valid t p : In p (map fst (all_nodes t)) <-> valid t p = true.
Proof.
  unfold all_nodes, valid, sub. rewrite in_map_iff. split.
  - intros [[q s] [Hq Hin]]. simpl in Hq. subst q. apply nodes_spec in Hin as (rr & Hq & Hs).
    rewrite app_nil_r in Hq. subst p. rewrite rev_involutive, Hs. reflexivity.
  - destruct (sub_rev t (rev p)) as [s|] eqn:Hs; [|discriminate]. intros _.
    exists (p, s). split; auto. apply nodes_spec. exists (rev p). rewrite rev_involutive, app_nil_r. auto.
Qed.
