(* FamilyProfileFacts.v — the per-family tree profile counts what it says (C10, meaning part). *)
From Coq Require Import List Arith Bool String Lia Permutation.
From PyHam Require Import Tax Ortho Mapper Preds Profile.
From PyHam.proofs Require Import TaxFacts MapperFacts ForestFacts ClusterFacts PartitionFacts.
Import ListNotations.

Lemma at_level_flags_filter X h : forall ch f,
  List.length (filter (fun x => snd (fst x)) (at_level X ch f h)) +
  List.length (filter (fun x => negb (snd (fst x))) (at_level X ch f h)) = List.length (at_level X ch f h).
Proof.
  intros ch f. induction (at_level X ch f h) as [|[[x b] c] r IH]; simpl; [reflexivity|].
  destruct b; simpl; lia.
Qed.

(* the members of family h living at lvl *)
Definition members_at (h : hog) (lvl : taxon) : list hog := filter (at_tax lvl) (all_of h).

Lemma at_level_members h lvl : map (fun e => fst (fst e)) (at_level lvl [] false h) = members_at h lvl.
Proof. apply at_level_filter. Qed.

Theorem family_node_meaning h lvl :
  taxon_eqb lvl (htax h) = false ->
  exists hf, hog_node h lvl = (lvl, List.length (members_at h lvl), Some hf) /\
    hf_dupl hf + hf_retained hf = List.length (members_at h lvl) /\
    hf_dupl hf = List.length (filter (fun x => snd (fst x)) (at_level lvl [] false h)) /\
    hf_lost hf = (match up lvl with
                  | Some u => List.length (filter (fun x => negb (has_child_at lvl x)) (members_at h u))
                  | None => 0
                  end) /\
    hf_events hf = hf_lost hf + hf_duplication hf.
Proof.
  intros Hne. unfold hog_node. rewrite Hne. eexists. split.
  - rewrite <- (at_level_members h lvl), map_length. reflexivity.
  - cbn [hf_dupl hf_retained hf_lost hf_events hf_duplication].
    rewrite <- (at_level_members h lvl), map_length.
    pose proof (at_level_flags_filter lvl h [] false) as Hf.
    split; [|split; [reflexivity|split; [|reflexivity]]].
    + assert (Hle : List.length (filter (fun x => snd (fst x)) (at_level lvl [] false h)) <= List.length (at_level lvl [] false h)).
      { clear. induction (at_level lvl [] false h) as [|e r IH]; simpl; [lia|]. destruct (snd (fst e)); simpl; lia. }
      lia.
    + destruct (up lvl) as [u|]; [|reflexivity].
      rewrite <- (at_level_members h u).
      clear. induction (at_level u [] false h) as [|e r IH]; simpl; [reflexivity|].
      destruct (has_child_at lvl (fst (fst e))); simpl; rewrite IH; reflexivity.
Qed.

Theorem family_root_node h : exists n, hog_node h (htax h) = (htax h, n, None).
Proof. unfold hog_node. rewrite taxon_eqb_refl. eauto. Qed.

(* whole-dataset genome size = sum over the roots (families and singletons) of their members there *)
Theorem nbr_genes_additive fo v :
  List.length (genome_refs fo v) = list_sum (map (fun r => List.length (members_at r v)) (fo_roots fo)).
Proof.
  rewrite genome_refs_filter, map_length. unfold all_nodes_of, members_at. rewrite filter_flat_map.
  induction (fo_roots fo) as [|r l IH]; simpl; [reflexivity|]. rewrite app_length, IH. reflexivity.
Qed.
