(* LookupFacts.v — lookups are coherent with listings and never ambiguous (C15). *)
From Coq Require Import List Arith Bool String Lia.
From PyHam Require Import Tax Ortho Loader Lookup.
From PyHam.proofs Require Import TaxFacts NewickFacts.
Import ListNotations.

Lemma mem_s_in s l : mem_s s l = true <-> In s l.
Proof. unfold mem_s. apply existsb_eqb_in. Qed.

Theorem gene_lookup_coherent l g p : In (g, p) (l_genes l) -> get_gene_by_id l g = Ok g.
Proof.
  intros H. unfold get_gene_by_id.
  assert (E : mem_s g (map fst (l_genes l)) = true) by (apply mem_s_in; apply in_map_iff; exists (g, p); auto).
  now rewrite E.
Qed.

Theorem gene_lookup_unknown l k : ~ In k (map fst (l_genes l)) -> get_gene_by_id l k = Err KeyError.
Proof.
  intros H. unfold get_gene_by_id. destruct (mem_s k (map fst (l_genes l))) eqn:E; auto.
  apply mem_s_in in E. contradiction.
Qed.

(* the cross-reference index never forgets *)
Lemma idx_add_keeps k g d k0 gs0 g0 :
  idx_get k0 d = Some gs0 -> In g0 gs0 -> exists gs1, idx_get k0 (idx_add k g d) = Some gs1 /\ In g0 gs1.
Proof.
  induction d as [|[k' gs] r IH]; intros Hg Hin; [discriminate|]. simpl in *.
  destruct (String.eqb k k') eqn:E.
  - simpl. destruct (String.eqb k0 k') eqn:E0.
    + inversion Hg; subst. exists (gs0 ++ [g]). split; auto. apply in_or_app. auto.
    + eauto.
  - simpl. destruct (String.eqb k0 k') eqn:E0; eauto.
Qed.

Lemma idx_add_has k g d : exists gs, idx_get k (idx_add k g d) = Some gs /\ In g gs.
Proof.
  induction d as [|[k' gs] r IH]; simpl.
  - rewrite String.eqb_refl. exists [g]. split; auto. left. reflexivity.
  - destruct (String.eqb k k') eqn:E; simpl; rewrite E.
    + exists (gs ++ [g]). split; auto. apply in_or_app. right. left. reflexivity.
    + exact IH.
Qed.

Definition has (d : list (string * list string)) (k g : string) : Prop :=
  exists gs, idx_get k d = Some gs /\ In g gs.

Lemma inner_fold_keeps gid (xs : list (string * string)) : forall acc k g, has acc k g ->
  has (fold_left (fun acc kv => idx_add (snd kv) gid acc) xs acc) k g.
Proof.
  induction xs as [|kv r IH]; intros acc k g H; simpl; auto.
  apply IH. destruct H as (gs & Hg & Hin). eapply idx_add_keeps; eauto.
Qed.

Lemma inner_fold_adds gid (xs : list (string * string)) : forall acc kv, In kv xs ->
  has (fold_left (fun acc kv => idx_add (snd kv) gid acc) xs acc) (snd kv) gid.
Proof.
  induction xs as [|kv0 r IH]; intros acc kv Hin; [contradiction|]. simpl. destruct Hin as [->|Hin].
  - apply inner_fold_keeps. apply idx_add_has.
  - apply IH. exact Hin.
Qed.

Lemma outer_fold_keeps gds : forall acc k g, has acc k g ->
  has (fold_left (fun acc gd => fold_left (fun acc kv => idx_add (snd kv) (gd_id gd) acc) (gd_xrefs gd) acc) gds acc) k g.
Proof.
  induction gds as [|gd r IH]; intros acc k g H; simpl; auto. apply IH. apply inner_fold_keeps. exact H.
Qed.

(* every gene is returned under each of its cross-reference ids *)
Theorem ext_lookup_coherent d gd kv :
  In gd (all_decls d) -> In kv (gd_xrefs gd) ->
  exists gs, get_genes_by_external_id d (snd kv) = Ok gs /\ In (gd_id gd) gs.
Proof.
  intros Hgd Hkv. unfold get_genes_by_external_id, ext_index.
  assert (H : has (fold_left (fun acc gd => fold_left (fun acc kv => idx_add (snd kv) (gd_id gd) acc) (gd_xrefs gd) acc)
                             (all_decls d) []) (snd kv) (gd_id gd)).
  { generalize (@nil (string * list string)) as acc. induction (all_decls d) as [|gd0 r IH]; intros acc; [contradiction|].
    simpl. destruct Hgd as [->|Hgd].
    - apply outer_fold_keeps. apply inner_fold_adds. exact Hkv.
    - apply IH. exact Hgd. }
  destruct H as (gs & Hg & Hin). rewrite Hg. eauto.
Qed.

Theorem ext_lookup_unknown d k :
  idx_get k (ext_index d) = None -> get_genes_by_external_id d k = Err KeyError.
Proof. intros H. unfold get_genes_by_external_id. now rewrite H. Qed.

(* names: at most one node per name once the taxonomy accepted the tree *)
Lemma filter_nodup_le1 {X} (f : X -> bool) (key : X -> string) (n : string) (l : list X) :
  NoDup (map key l) -> (forall x, f x = true -> key x = n) -> List.length (filter f l) <= 1.
Proof.
  intros Hn Hk. induction l as [|x r IH]; simpl; [lia|]. inversion Hn as [|? ? Hx Hr]; subst.
  destruct (f x) eqn:E; [|apply IH; auto]. simpl.
  assert (filter f r = []); [|rewrite H; simpl; lia].
  destruct (filter f r) as [|y l'] eqn:Ef; auto. exfalso.
  assert (Hy : In y (filter f r)) by (rewrite Ef; left; reflexivity). apply filter_In in Hy as [Hy Hfy].
  apply Hx. rewrite (Hk x E), <- (Hk y Hfy). apply in_map. exact Hy.
Qed.

Theorem taxon_lookup_spec t n :
  match search t n with
  | [p] => get_taxon_by_name t n = Ok p
  | _ => get_taxon_by_name t n = Err KeyError
  end.
Proof. unfold get_taxon_by_name. destruct (search t n) as [|p [|q r]]; reflexivity. Qed.

Theorem taxon_lookup_sound t n p : get_taxon_by_name t n = Ok p -> name_of t p = Some n /\ valid t p = true.
Proof.
  unfold get_taxon_by_name. destruct (search t n) as [|q [|q' r]] eqn:E; try discriminate.
  intros H. inversion H; subst.
  assert (Hin : In p (search t n)) by (rewrite E; left; reflexivity).
  unfold search in Hin. apply in_map_iff in Hin as ([p' s] & Ep & Hin). simpl in Ep. subst p'.
  apply filter_In in Hin as [Hin Hn]. simpl in Hn. apply String.eqb_eq in Hn.
  unfold all_nodes in Hin. apply nodes_spec in Hin as (rr & Hq & Hs). rewrite app_nil_r in Hq. subst p.
  unfold name_of, valid, sub. rewrite rev_involutive, Hs. simpl. split; congruence.
Qed.

(* ambiguous trees are rejected when the taxonomy is built *)
Theorem ambiguous_rejected (ui : bool) t :
  ~ NoDup (leaf_names (if ui then t else synth t)) \/ ~ NoDup (internal_names (if ui then t else synth t)) ->
  build_taxonomy ui t = Err KeyError.
Proof.
  intros H. unfold build_taxonomy. set (u := if ui then t else synth t) in *.
  destruct (nodupb (leaf_names u)) eqn:El; simpl; [|reflexivity].
  destruct (nodupb (internal_names u)) eqn:Ei; simpl; [|reflexivity].
  apply nodupb_NoDup in El, Ei. destruct H; contradiction.
Qed.
