(* NewickFacts.v — names, uniqueness checks and the Newick round trip. *)
From Coq Require Import List Arith Bool String Ascii Lia.
From PyHam Require Import Tax Newick.
From PyHam.proofs Require Import TaxFacts.
Import ListNotations.

Local Notation la := list_ascii_of_string.

(* ---------- synthesised names ---------- *)
Lemma skids_synth t : skids (synth t) = map synth (skids t).
Proof. destruct t as [n [|c r]]; reflexivity. Qed.

Lemma leaf_names_synth t : leaf_names (synth t) = leaf_names t.
Proof.
  induction t as [n ks IH] using stree_ind'.
  destruct ks as [|c r]; [reflexivity|].
  change (synth (SNode n (c :: r))) with (SNode (join "/" (leaf_names (SNode n (c :: r)))) (map synth (c :: r))).
  change (leaf_names (SNode n (c :: r))) with (flat_map leaf_names (c :: r)).
  change (leaf_names (SNode ?m (map synth (c :: r)))) with (flat_map leaf_names (map synth (c :: r))).
  induction IH as [|x l Hx Hl IHl]; simpl; [reflexivity|]. simpl in IHl. now rewrite Hx, IHl.
Qed.

Lemma sname_synth t :
  sname (synth t) = if sleaf t then sname t else join "/" (leaf_names t).
Proof. destruct t as [n [|c r]]; reflexivity. Qed.

Lemma sub_rev_synth rp : forall t, sub_rev (synth t) rp = option_map synth (sub_rev t rp).
Proof.
  induction rp as [|k rp IH]; intros t; simpl; [reflexivity|].
  rewrite skids_synth, nth_error_map. destruct (nth_error (skids t) k); simpl; auto.
Qed.

(* every node of the renamed tree is the renamed node of the original tree *)
Lemma sub_synth t p : sub (synth t) p = option_map synth (sub t p).
Proof. apply sub_rev_synth. Qed.

Lemma name_of_synth t p s :
  sub t p = Some s ->
  name_of (synth t) p = Some (if sleaf s then sname s else join "/" (leaf_names s)).
Proof. intros H. unfold name_of. rewrite sub_synth, H. simpl. now rewrite sname_synth. Qed.

(* ---------- uniqueness checks ---------- *)
Lemma existsb_eqb_in x l : existsb (String.eqb x) l = true <-> In x l.
Proof.
  rewrite existsb_exists. split.
  - intros [y [Hy He]]. apply String.eqb_eq in He. now subst.
  - intros H. exists x. split; auto. apply String.eqb_refl.
Qed.

Lemma nodupb_NoDup l : nodupb l = true <-> NoDup l.
Proof.
  induction l as [|x r IH]; simpl.
  - split; auto. constructor.
  - rewrite andb_true_iff, negb_true_iff, IH. split.
    + intros [Hn Hr]. constructor; auto. intros Hin. apply existsb_eqb_in in Hin. congruence.
    + intros H. inversion H; subst. split; auto.
      destruct (existsb (String.eqb x) r) eqn:E; auto. apply existsb_eqb_in in E. contradiction.
Qed.

Definition no_shared_name (t : stree) : Prop := forall n, In n (internal_names t) -> ~ In n (leaf_names t).

Lemma shared_names_spec t : shared_names t = false <-> no_shared_name t.
Proof.
  unfold shared_names, no_shared_name. split.
  - intros H n Hi Hl. assert (E : existsb (fun n => existsb (String.eqb n) (leaf_names t)) (internal_names t) = true).
    { apply existsb_exists. exists n. split; [exact Hi|]. apply existsb_eqb_in. exact Hl. }
    congruence.
  - intros H. destruct (existsb _ (internal_names t)) eqn:E; [|reflexivity]. exfalso.
    apply existsb_exists in E as (n & Hi & Hl). apply existsb_eqb_in in Hl. exact (H n Hi Hl).
Qed.

Lemma build_taxonomy_ok ui t t' :
  build_taxonomy ui t = Ok t' ->
  t' = (if ui then t else synth t) /\ NoDup (leaf_names t') /\ NoDup (internal_names t').
Proof.
  unfold build_taxonomy. set (u := if ui then t else synth t).
  destruct (nodupb (leaf_names u)) eqn:El; simpl; [|discriminate].
  destruct (nodupb (internal_names u)) eqn:Ei; simpl; [|discriminate].
  destruct (shared_names u) eqn:Es; [discriminate|].
  intros H. inversion H; subst. repeat split; now apply nodupb_NoDup.
Qed.

Lemma build_taxonomy_no_shared ui t t' : build_taxonomy ui t = Ok t' -> no_shared_name t'.
Proof.
  unfold build_taxonomy. set (u := if ui then t else synth t).
  destruct (nodupb (leaf_names u)) eqn:El; simpl; [|discriminate].
  destruct (nodupb (internal_names u)) eqn:Ei; simpl; [|discriminate].
  destruct (shared_names u) eqn:Es; [discriminate|].
  intros H. inversion H; subst. apply shared_names_spec. exact Es.
Qed.

Lemma build_taxonomy_dup_leaves ui t :
  ~ NoDup (leaf_names t) -> build_taxonomy ui t = Err KeyError.
Proof.
  intros H. unfold build_taxonomy.
  assert (E : nodupb (leaf_names (if ui then t else synth t)) = false).
  { destruct (nodupb _) eqn:E; auto. apply nodupb_NoDup in E. destruct ui; [|rewrite leaf_names_synth in E]; contradiction. }
  now rewrite E.
Qed.

Lemma build_taxonomy_accepts (ui : bool) t :
  let u := if ui then t else synth t in
  NoDup (leaf_names u) -> NoDup (internal_names u) -> no_shared_name u -> build_taxonomy ui t = Ok u.
Proof.
  intros u Hl Hi Hs. unfold build_taxonomy. fold u.
  apply nodupb_NoDup in Hl, Hi. apply shared_names_spec in Hs. now rewrite Hl, Hi, Hs.
Qed.

Lemma build_taxonomy_shared (ui : bool) t :
  ~ no_shared_name (if ui then t else synth t) -> build_taxonomy ui t = Err KeyError.
Proof.
  intros H. unfold build_taxonomy. set (u := if ui then t else synth t) in *.
  destruct (nodupb (leaf_names u)); simpl; [|reflexivity]. destruct (nodupb (internal_names u)); simpl; [|reflexivity].
  destruct (shared_names u) eqn:Es; [reflexivity|]. apply shared_names_spec in Es. contradiction.
Qed.

(* ---------- Newick round trip ---------- *)
Lemma la_app a b : la (a ++ b) = (la a ++ la b)%list.
Proof. induction a as [|c a IH]; simpl; [reflexivity|]. now rewrite IH. Qed.

(* the writer on character lists *)
Fixpoint lw (t : stree) : list ascii :=
  match t with
  | SNode n [] => la (name_text n)
  | SNode n (c :: r) =>
      "("%char :: lw c ++
      (fix go (l : list stree) : list ascii :=
         match l with
         | [] => []
         | x :: r' => ","%char :: lw x ++ go r'
         end) r ++ ")"%char :: la (name_text n)
  end.

Fixpoint lw_rest (l : list stree) : list ascii :=
  match l with
  | [] => []
  | x :: r => ","%char :: lw x ++ lw_rest r
  end.

Lemma lw_unfold n c r : lw (SNode n (c :: r)) = "("%char :: lw c ++ lw_rest r ++ ")"%char :: la (name_text n).
Proof.
  reflexivity.
Qed.

Lemma la_write_node t : la (write_node t) = lw t.
Proof.
  induction t as [n ks IH] using stree_ind'.
  destruct ks as [|c r]; [reflexivity|].
  rewrite lw_unfold. inversion IH as [|? ? Hc Hr]; subst.
  cbn [write_node]. rewrite !la_app. simpl (la "("). simpl (la ")"). simpl.
  f_equal. rewrite Hc. f_equal. f_equal.
  clear Hc IH. induction Hr as [|x l Hx Hl IHl]; [reflexivity|].
  cbn [lw_rest la]. f_equal. rewrite la_app, Hx. f_equal. exact IHl.
Qed.

Definition name_ok (n : string) : Prop :=
  n <> EmptyString /\ forallb (fun c => negb (is_delim c)) (la n) = true.

Fixpoint names_ok (t : stree) : Prop :=
  match t with
  | SNode n ks => name_ok n /\ (fix go (l : list stree) : Prop :=
                                  match l with [] => True | x :: r => names_ok x /\ go r end) ks
  end.

Lemma names_ok_unfold n ks : names_ok (SNode n ks) <-> name_ok n /\ Forall names_ok ks.
Proof.
  simpl. split; intros [Hn Hk]; split; auto.
  - induction ks as [|x r IH]; [constructor|]. destruct Hk. constructor; auto.
  - induction Hk; simpl; auto.
Qed.

Lemma name_text_ok n : name_ok n -> name_text n = n.
Proof. intros [Hn _]. destruct n; [contradiction|reflexivity]. Qed.

Definition starts_delim (rest : list ascii) : Prop :=
  match rest with [] => True | c :: _ => is_delim c = true end.

Lemma take_name_app n rest :
  forallb (fun c => negb (is_delim c)) n = true -> starts_delim rest ->
  take_name (n ++ rest) = (n, rest).
Proof.
  intros Hn Hr. induction n as [|c n IH]; simpl.
  - destruct rest as [|d rest]; [reflexivity|]. simpl in Hr. simpl. now rewrite Hr.
  - simpl in Hn. apply andb_true_iff in Hn as [Hc Hn]. apply negb_true_iff in Hc. rewrite Hc.
    now rewrite (IH Hn).
Qed.

Lemma string_of_la s : string_of_list_ascii (la s) = s.
Proof. apply string_of_list_ascii_of_string. Qed.

(* fuel needed *)
Fixpoint fu (t : stree) : nat :=
  match t with
  | SNode _ ks => S ((fix go (l : list stree) : nat :=
                        match l with [] => 0 | x :: r => S (Nat.max (fu x) (go r)) end) ks)
  end.
Fixpoint fuk (l : list stree) : nat :=
  match l with [] => 0 | x :: r => S (Nat.max (fu x) (fuk r)) end.
Lemma fu_unfold n ks : fu (SNode n ks) = S (fuk ks).
Proof. reflexivity. Qed.

Lemma first_not_paren n : name_ok n -> exists c r, la n = c :: r /\ Ascii.eqb c "(" = false.
Proof.
  intros [Hne Hd]. destruct n as [|c n]; [contradiction|]. exists c, (la n). split; [reflexivity|].
  simpl in Hd. apply andb_true_iff in Hd as [Hc _]. apply negb_true_iff in Hc.
  unfold is_delim in Hc. repeat (apply orb_false_iff in Hc as [Hc ?]). exact Hc.
Qed.

Lemma delim_comma : is_delim ","%char = true. Proof. reflexivity. Qed.
Lemma delim_close : is_delim ")"%char = true. Proof. reflexivity. Qed.
Lemma delim_semi : is_delim ";"%char = true. Proof. reflexivity. Qed.

Lemma parse_node_write t : names_ok t -> forall f rest, fu t <= f -> starts_delim rest ->
  parse_node f (lw t ++ rest) = Some (t, rest).
Proof.
  induction t as [n ks IH] using stree_ind'. intros Hok f rest Hf Hr.
  apply names_ok_unfold in Hok as [Hn Hks]. rewrite fu_unfold in Hf.
  destruct f as [|f]; [lia|]. apply le_S_n in Hf.
  destruct ks as [|c r].
  - (* leaf *)
    simpl lw. rewrite (name_text_ok _ Hn).
    destruct (first_not_paren n Hn) as (c0 & r0 & Hc0 & Hp).
    cbn [parse_node]. rewrite Hc0. cbn [app]. rewrite Hp. change (c0 :: r0 ++ rest) with ((c0 :: r0) ++ rest). rewrite <- Hc0.
    destruct Hn as [_ Hd]. rewrite (take_name_app _ _ Hd Hr). now rewrite string_of_la.
  - (* internal node *)
    rewrite lw_unfold. cbn [parse_node app]. change (Ascii.eqb "(" "(") with true. cbn iota.
    (* the children *)
    assert (Hkids : forall l f' tail, Forall (fun t => names_ok t -> forall f rest, fu t <= f -> starts_delim rest ->
                                                  parse_node f (lw t ++ rest) = Some (t, rest)) l ->
                     Forall names_ok l -> l <> [] -> fuk l <= f' ->
                     match l with
                     | [] => True
                     | x :: l' => parse_kids f' (lw x ++ lw_rest l' ++ ")"%char :: tail) = Some (l, tail)
                     end).
    { clear. induction l as [|x l' IHl]; intros f' tail HIH Hok Hne Hf'; [exact I|].
      inversion HIH as [|? ? Hx Hl]; subst. inversion Hok as [|? ? Hox Hol]; subst.
      simpl in Hf'. destruct f' as [|f']; [lia|]. apply le_S_n in Hf'.
      cbn [parse_kids]. destruct l' as [|y l''].
      - simpl lw_rest. cbn [app]. rewrite (Hx Hox f' (")"%char :: tail)); [|lia|exact delim_close].
        change (Ascii.eqb ")" ",") with false. change (Ascii.eqb ")" ")") with true. reflexivity.
      - cbn [lw_rest].
        change ((","%char :: lw y ++ lw_rest l'') ++ ")"%char :: tail)
          with (","%char :: (lw y ++ lw_rest l'') ++ ")"%char :: tail).
        rewrite (Hx Hox f' (","%char :: (lw y ++ lw_rest l'') ++ ")"%char :: tail)); [|lia|exact delim_comma].
        change (Ascii.eqb "," ",") with true. cbn iota.
        rewrite <- app_assoc.
        specialize (IHl f' tail Hl Hol). simpl in IHl. rewrite IHl; [reflexivity|discriminate|cbn [fuk] in *; lia]. }
    specialize (Hkids (c :: r) f (la (name_text n) ++ rest) IH Hks). simpl in Hkids.
    rewrite <- !app_assoc. rewrite <- app_comm_cons.
    rewrite Hkids; [|discriminate|simpl in Hf; exact Hf].
    rewrite (name_text_ok _ Hn). destruct Hn as [_ Hd]. rewrite (take_name_app _ _ Hd Hr).
    now rewrite string_of_la.
Qed.

(* length of the text bounds the fuel *)
Lemma lw_nonempty t : names_ok t -> 1 <= List.length (lw t).
Proof.
  destruct t as [n ks]. intros Hok. apply names_ok_unfold in Hok as [[Hn _] _].
  destruct ks as [|c r].
  - simpl. destruct n; [contradiction|]. simpl. lia.
  - rewrite lw_unfold. simpl. lia.
Qed.

Lemma fu_bound t : names_ok t -> fu t <= 2 * List.length (lw t).
Proof.
  induction t as [n ks IH] using stree_ind'. intros Hok.
  apply names_ok_unfold in Hok as [Hn Hks]. rewrite fu_unfold.
  destruct ks as [|c r].
  - simpl. destruct Hn as [Hn _]. destruct n; [contradiction|]. simpl. lia.
  - rewrite lw_unfold.
    assert (H : forall l, Forall (fun t => names_ok t -> fu t <= 2 * List.length (lw t)) l -> Forall names_ok l ->
                 fuk l <= 2 * List.length (lw_rest l)).
    { clear. induction l as [|x l IHl]; intros HIH Hok; simpl; [lia|].
      inversion HIH; subst. inversion Hok; subst. rewrite app_length.
      specialize (IHl H2 H4). specialize (H1 H3). lia. }
    inversion IH as [|? ? Hc Hr]; subst. inversion Hks as [|? ? Hoc Hor]; subst.
    specialize (H r Hr Hor). specialize (Hc Hoc).
    simpl fuk. simpl List.length. rewrite !app_length. simpl. lia.
Qed.

Theorem newick_roundtrip t : names_ok t -> parse (write8 t) = Some t.
Proof.
  intros Hok. unfold parse, write8. rewrite la_app, la_write_node. simpl (la ";").
  rewrite parse_node_write; auto.
  - pose proof (fu_bound t Hok). rewrite app_length. simpl. lia.
  - exact delim_semi.
Qed.
