(* C15 — lookups are coherent with listings and never ambiguous. *)
From Coq Require Import List Arith Bool String Permutation.
From PyHam Require Import Tax Ortho Loader Lookup Export Session.
From PyHam.proofs Require Import NewickFacts LookupFacts SessionFacts NamesFacts.
Import ListNotations.

(* every listed gene is returned by the lookup by id; unknown ids raise KeyError *)
Theorem c15_gene_by_id : forall l,
  (forall g p, In (g, p) (l_genes l) -> get_gene_by_id l g = Ok g) /\
  (forall k, ~ In k (map fst (l_genes l)) -> get_gene_by_id l k = Err KeyError).
Proof. intros l. split; [apply gene_lookup_coherent|apply gene_lookup_unknown]. Qed.
Print Assumptions c15_gene_by_id.

(* every gene is returned under each of its cross-reference ids (also ids shared by several genes);
   ids no gene carries raise KeyError *)
Theorem c15_external_ids : forall d,
  (forall gd kv, In gd (all_decls d) -> In kv (gd_xrefs gd) ->
     exists gs, get_genes_by_external_id d (snd kv) = Ok gs /\ In (gd_id gd) gs) /\
  (forall k, idx_get k (ext_index d) = None -> get_genes_by_external_id d k = Err KeyError).
Proof. intros d. split; [apply ext_lookup_coherent|apply ext_lookup_unknown]. Qed.
Print Assumptions c15_external_ids.

(* lookup of a tree node by name: the node carrying that name when exactly one does, KeyError otherwise *)
Theorem c15_taxon_by_name : forall t n,
  match search t n with
  | [p] => get_taxon_by_name t n = Ok p
  | _ => get_taxon_by_name t n = Err KeyError
  end /\
  (forall p, get_taxon_by_name t n = Ok p -> name_of t p = Some n /\ valid t p = true).
Proof. intros t n. split; [apply taxon_lookup_spec|intros p; apply taxon_lookup_sound]. Qed.
Print Assumptions c15_taxon_by_name.

(* never ambiguous: a tree with repeated leaf names, repeated (assigned) internal names or a name carried by both a
   leaf and an internal node (finding F12 repaired) is rejected when the taxonomy is built; in an accepted tree no two
   nodes have the same name *)
Theorem c15_unambiguous : forall (ui : bool) t,
  (~ NoDup (leaf_names (if ui then t else synth t)) \/ ~ NoDup (internal_names (if ui then t else synth t)) \/
   ~ no_shared_name (if ui then t else synth t) ->
   build_taxonomy ui t = Err KeyError) /\
  (forall t', build_taxonomy ui t = Ok t' ->
     NoDup (leaf_names t') /\ NoDup (internal_names t') /\ no_shared_name t' /\
     forall p q n, name_of t' p = Some n -> name_of t' q = Some n -> p = q).
Proof.
  intros ui t. split; [apply ambiguous_rejected|].
  intros t' H. pose proof (build_taxonomy_no_shared ui t t' H) as Hs. pose proof (built_all_names_inj ui t t' H) as Hn.
  apply build_taxonomy_ok in H as (_ & H1 & H2). auto.
Qed.
Print Assumptions c15_unambiguous.

(* the common ancestor of a genome set (any size >= 2, members in any relative position) *)
Theorem c15_mrca_of_genome_set : forall t st x y r m,
  get_mrca_genome_set t st (x :: y :: r) = Ok m ->
  (forall g, In g (x :: y :: r) -> anc_of m g) /\
  (forall a, (forall g, In g (x :: y :: r) -> anc_of a g) -> anc_of a m) /\
  In m (s_genomes st) /\ is_leaf t m = false.
Proof. exact mrca_set_spec. Qed.
Print Assumptions c15_mrca_of_genome_set.

Local Open Scope string_scope.
(* ... whatever the order in which the set of genomes is enumerated *)
Theorem c15_mrca_set_order_irrelevant : forall t st gs gs',
  Permutation gs gs' -> get_mrca_genome_set t st gs = get_mrca_genome_set t st gs'.
Proof. exact mrca_set_perm. Qed.
Print Assumptions c15_mrca_set_order_irrelevant.

(* coherence of the genome listings with the genome lookups in every state an analysis can reach: over a taxonomy
   that was accepted, after any history of analysis calls (which may create genomes on demand) every ancestral genome
   of the listing is returned by the lookup by its node and by its name, every extant genome by its name *)
Theorem c15_genome_lookups_after_any_history : forall ui t0 t fo ops s0,
  build_taxonomy ui t0 = Ok t ->
  Forall (fun q => valid t q = true) (ss_genomes s0) -> args_ok (ss_genomes s0) ops ->
  let s := srun t fo ops s0 in
  (forall p, In p (ancestral_listing t s) -> s_anc_by_taxon t s p = Ok p /\ s_anc_by_name t s (tax_name t p) = Ok p) /\
  (forall p, In p (extant_listing t s) -> s_ext_by_name t s (tax_name t p) = Ok p).
Proof.
  intros ui t0 t fo ops s0 Hb Hv Ha. apply listed_genomes_found_after_history; [|exact Hv|exact Ha].
  exact (built_names_inj ui t0 t Hb).
Qed.
Print Assumptions c15_genome_lookups_after_any_history.

Example c15_nonvacuous :
  build_taxonomy true (SNode "R" [SNode "X" [SNode "A" []; SNode "B" []]; SNode "X" [SNode "C" []; SNode "D" []]]) = Err KeyError /\
  get_genes_by_external_id
    {| d_species := [ {| sp_name := "A"; sp_genes := [ {| gd_id := "1"; gd_xrefs := [("geneId", "SH")] |};
                                                       {| gd_id := "2"; gd_xrefs := [("geneId", "SH"); ("protId", "P2")] |} ] |} ];
       d_groups := [] |} "SH" = Ok ["1"; "2"].
Proof. vm_compute. split; reflexivity. Qed.
