(* Session.v — the state behind the public analysis API of one Ham object: the pair-keyed HOGMaps
   cache (Ham._get_HOGMap), the memoised ancestral clustering (AncestralGenome.get_ancestral_clustering),
   the memoised iHam export (HOG.get_hog_vis) and the genomes created on demand.  The loaded forest
   is a parameter: no analysis call writes to it.  Model only: no proofs in this file. *)
From Coq Require Import List Arith Bool String.
From PyHam Require Import Tax Ortho Loader Mapper Profile Nav Export.
Import ListNotations.

Record sstate := {
  ss_genomes : list taxon;                                  (* nodes carrying a genome object *)
  ss_maps : list ((taxon * taxon) * hmap);                  (* HOGMaps, keyed by the oriented pair *)
  ss_clust : list (taxon * list (ref * list string));       (* ancestral_clustering per genome *)
  ss_vis : list (nat * list item)                           (* hogvis per HOG *)
}.

Inductive op :=
| OVertical (g1 g2 : taxon)
| OLateral (g1 g2 : taxon)
| OProfileFull
| OClustering (p : taxon)
| OIham (oid : nat)
(* calls that keep no state of their own: per-family tree profile, navigation from a HOG, get_at_level *)
| OProfileHog (oid : nat)
| ONav (oid : nat)
| OAtLevel (r : ref) (g : taxon).

Inductive out :=
| RVertical (r : result (taxon * taxon * hmap))
| RLateral (r : taxon * list (taxon * hmap))
| RProfile (r : result (list pnode))
| RClustering (r : list (ref * list string))
| RIham (r : option (list item))
| RProfileHog (r : option (option (list hnode)))
| RNav (r : option (list ref * list (taxon * list string) * list ref * list taxon))
| RAtLevel (r : result (list ref)).

Definition pair_eqb (x y : taxon * taxon) : bool := taxon_eqb (fst x) (fst y) && taxon_eqb (snd x) (snd y).

Fixpoint map_get (k : taxon * taxon) (c : list ((taxon * taxon) * hmap)) : option hmap :=
  match c with
  | [] => None
  | (k', m) :: r => if pair_eqb k k' then Some m else map_get k r
  end.

Definition add_genome (p : taxon) (gs : list taxon) : list taxon :=
  if mem_tax p gs then gs else gs ++ [p].

(* Ham._get_HOGMap through the cache *)
Definition cached_map (fo : forest) (s : sstate) (a d : taxon) : sstate * hmap :=
  match map_get (a, d) (ss_maps s) with
  | Some m => (s, m)
  | None =>
      let m := hogmap fo a d in
      ({| ss_genomes := ss_genomes s; ss_maps := ((a, d), m) :: ss_maps s;
          ss_clust := ss_clust s; ss_vis := ss_vis s |}, m)
  end.

Fixpoint clust_get (p : taxon) (c : list (taxon * list (ref * list string))) : option (list (ref * list string)) :=
  match c with
  | [] => None
  | (p', x) :: r => if taxon_eqb p p' then Some x else clust_get p r
  end.

Fixpoint vis_get (o : nat) (c : list (nat * list item)) : option (list item) :=
  match c with
  | [] => None
  | (o', x) :: r => if Nat.eqb o o' then Some x else vis_get o r
  end.

Definition find_hog (fo : forest) (o : nat) : option hog :=
  find (fun h => match h with HHog o' _ _ _ => Nat.eqb o o' | _ => false end)
       (flat_map all_of (fo_roots fo)).

(* the whole-dataset profile: one cached map per non-root node that has (or gets) a genome; every internal node
   gets a genome.  Finding F8 repaired: a leaf without genome (a species of the tree with no gene in the data) gets
   neither a genome nor a map - all genes of its parent level are lost on that branch, which is what full_node
   computes from the forest. *)
Definition skip_leaf (t : stree) (gs : list taxon) (p : taxon) : bool := is_leaf t p && negb (mem_tax p gs).

Definition profile_maps (fo : forest) (t : stree) (s : sstate) : sstate :=
  fold_left (fun s pn => match up (fst pn) with
                         | Some u => if skip_leaf t (ss_genomes s) (fst pn) then s else fst (cached_map fo s u (fst pn))
                         | None => s
                         end) (all_nodes t) s.

Definition sstep (t : stree) (fo : forest) (s : sstate) (o : op) : sstate * out :=
  match o with
  | OVertical g1 g2 =>
      if taxon_eqb g1 g2 then (s, RVertical (Err IndexError))
      else match orient g1 g2 with
           | Ok (a, d) => let (s', m) := cached_map fo s a d in (s', RVertical (Ok (a, d, m)))
           | Err e => (s, RVertical (Err e))
           end
  | OLateral g1 g2 =>
      ({| ss_genomes := add_genome (lcs g1 g2) (ss_genomes s); ss_maps := ss_maps s;
          ss_clust := ss_clust s; ss_vis := ss_vis s |}, RLateral (lateral fo g1 g2))
  | OProfileFull =>
      match profile_full t fo with
      | Ok r =>
          let s1 := profile_maps fo t s in
          ({| ss_genomes := fold_left (fun gs pn => if is_leaf t (fst pn) then gs else add_genome (fst pn) gs)
                                      (all_nodes t) (ss_genomes s1);
              ss_maps := ss_maps s1; ss_clust := ss_clust s1; ss_vis := ss_vis s1 |}, RProfile (Ok r))
      | Err e => (s, RProfile (Err e))
      end
  | OClustering p =>
      match clust_get p (ss_clust s) with
      | Some c => (s, RClustering c)
      | None =>
          let c := ancestral_clustering fo p in
          ({| ss_genomes := ss_genomes s; ss_maps := ss_maps s; ss_clust := (p, c) :: ss_clust s; ss_vis := ss_vis s |},
           RClustering c)
      end
  | OIham oid =>
      match vis_get oid (ss_vis s) with
      | Some x => (s, RIham (Some x))
      | None =>
          match find_hog fo oid with
          | Some h =>
              let x := export_groups t h in
              ({| ss_genomes := ss_genomes s; ss_maps := ss_maps s; ss_clust := ss_clust s; ss_vis := (oid, x) :: ss_vis s |},
               RIham (Some x))
          | None => (s, RIham None)
          end
      end
  | OProfileHog oid => (s, RProfileHog (option_map (profile_hog t) (find_hog fo oid)))
  | ONav oid =>
      (s, RNav (option_map (fun h => (desc_genes h, genes_by_species h, desc_hogs h, desc_levels h)) (find_hog fo oid)))
  | OAtLevel r g => (s, RAtLevel (get_at_level fo r g))
  end.

Definition srun (t : stree) (fo : forest) (ops : list op) (s : sstate) : sstate :=
  fold_left (fun s o => fst (sstep t fo s o)) ops s.

Definition sinit (genomes : list taxon) : sstate :=
  {| ss_genomes := genomes; ss_maps := []; ss_clust := []; ss_vis := [] |}.

(* Ham.get_list_extant_genomes / get_list_ancestral_genomes: the nodes carrying a genome, by kind (the real
   listings are built from sets: their order is not part of the result) *)
Definition extant_listing (t : stree) (s : sstate) : list taxon := filter (is_leaf t) (ss_genomes s).
Definition ancestral_listing (t : stree) (s : sstate) : list taxon :=
  filter (fun p => negb (is_leaf t p)) (ss_genomes s).

(* the genome lookups on the current state (Ham.get_ancestral_genome_by_taxon / _by_name, get_extant_genome_by_name):
   a scan over the nodes that carry a genome of that kind *)
Definition s_anc_by_taxon (t : stree) (s : sstate) (p : taxon) : result taxon :=
  if mem_tax p (ss_genomes s) && negb (is_leaf t p) then Ok p else Err KeyError.

Definition first_named (t : stree) (n : string) (l : list taxon) : result taxon :=
  match filter (fun p => String.eqb (tax_name t p) n) l with
  | p :: _ => Ok p
  | [] => Err KeyError
  end.

Definition s_anc_by_name (t : stree) (s : sstate) (n : string) : result taxon := first_named t n (ancestral_listing t s).
Definition s_ext_by_name (t : stree) (s : sstate) (n : string) : result taxon := first_named t n (extant_listing t s).
