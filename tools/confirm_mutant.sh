#!/bin/bash
# confirm_mutant.sh <dir with patch.diff and demo.py> : scratch worktree, tests, demo with / without the change
set -u
src=$(readlink -f "$1"); w=/tmp/confirm.$$; nd=/tmp/confirm_neutral.$$
git -C /repo worktree add -q "$w" HEAD || exit 2
mkdir -p "$nd"; cp "$src/demo.py" "$nd/demo.py"
cd "$nd"
PYTHONHASHSEED=0 PYTHONPATH="$w" /venv/bin/python demo.py >/dev/null 2>&1; echo "demo without change: exit $?"
git -C "$w" apply "$src/patch.diff" || { echo "patch does not apply"; }
PYTHONHASHSEED=0 PYTHONPATH="$w" /venv/bin/python demo.py >"$nd/out.txt" 2>&1; echo "demo with change: exit $?"; tail -3 "$nd/out.txt"
(cd "$w" && /venv/bin/python -m pytest -q -p no:cacheprovider --timeout=900 2>&1 | tail -1)
cd /; git -C /repo worktree remove --force "$w"; git -C /repo worktree prune; rm -rf "$nd" "$w"
