(* SpellCheck.v — an executable check that a document is a consistent input in the sense of
   WholeFacts.consistent: the groups are permitted spellings (Spell.v) of the given (ordered) histories, the
   histories are well formed over the declared genes, species blocks name leaves, genes are declared once and
   referenced at most once.  Sound (SpellCheckFacts.v), not claimed complete: the harness runs it on the
   inputs it generates to measure how much of the explored domain the theorems of C02/C03/... speak about.
   Definitions only: no proofs in this file. *)
From Coq Require Import List Arith Bool String.
From PyHam Require Import Tax Ortho Loader Filter Hist Spell.
Import ListNotations.
Local Open Scope string_scope.
Local Open Scope list_scope.

Definition is_annotb (it : item) : bool := match it with IProp _ _ | IScore _ _ => true | _ => false end.

Definition opt_tax_eqb (a b : option taxon) : bool :=
  match a, b with
  | Some x, Some y => taxon_eqb x y
  | None, None => true
  | _, _ => false
  end.

Definition label_okb (t : stree) (lins : list (list hist)) (body : list item) : bool :=
  match assoc_last "TaxRange" (flat_map item_props body) with
  | None => true
  | Some v =>
      match lins with
      | [l] => negb (match name_of t (lin_tax l) with Some n => String.eqb n v | None => false end)
      | _ => true
      end
  end.

Definition levels_okb (X : taxon) (lvls : list taxon) : bool :=
  forallb (fun l => taxon_eqb l X) lvls ||
  match dedup_tax lvls with
  | x :: (y :: r') => taxon_eqb (fold_left lcs (y :: r') x) X
  | _ => false
  end.

Fixpoint chk_member (n : nat) (t : stree) (mp : bool) (h : hist) (it : item) {struct n} : option (option taxon) :=
  match n with
  | 0 => None
  | S n' =>
      match it with
      | IGene g _ =>
          match h with
          | XG g' p => if String.eqb g g' then Some (Some p) else None
          | XH _ [[c]] => chk_member n' t mp c it
          | _ => None
          end
      | IOG id og body =>
          match h with
          | XG g p =>
              match body with
              | [IProp k nm; IGene g' _] =>
                  if String.eqb k "TaxRange" && String.eqb g g' &&
                     (match name_of t p with Some n0 => String.eqb n0 nm | None => false end)
                  then Some (Some p) else None
              | _ => None
              end
          | XH p lins =>
              if chk_body n' t (single lins) p lins body && label_okb t lins body then Some (Some p)
              else match lins with [[c]] => chk_member n' t mp c it | _ => None end
          end
      | IPG og body =>
          match h with
          | XH p [cs] =>
              match cs with
              | [c] => chk_member n' t mp c it
              | _ =>
                  if mp && Nat.leb 2 (List.length cs) then
                    match chk_units n' t cs body with
                    | Some ([], lvls) => if levels_okb (lin_tax cs) lvls then Some None else None
                    | _ => None
                    end
                  else None
              end
          | _ => None
          end
      | _ => None
      end
  end
with chk_body (n : nat) (t : stree) (sgl : bool) (p : taxon) (lins : list (list hist)) (body : list item) {struct n} : bool :=
  match n with
  | 0 => false
  | S n' =>
      match body with
      | [] => match lins with [] => true | _ => false end
      | it :: r =>
          if is_annotb it then chk_body n' t sgl p lins r
          else
            match lins with
            | [] => false
            | [c] :: lr =>
                match chk_member n' t true c it with
                | Some lv => (if sgl then opt_tax_eqb lv (Some (xtax c)) else true) && chk_body n' t sgl p lr r
                | None => false
                end
            | cs :: lr =>
                Nat.leb 2 (List.length cs) &&
                match it with
                | IPG og pgbody =>
                    match chk_units n' t cs pgbody with
                    | Some ([], lvls) => levels_okb (lin_tax cs) lvls && chk_body n' t sgl p lr r
                    | _ => false
                    end
                | _ => false
                end
            end
      end
  end
with chk_units (n : nat) (t : stree) (cs : list hist) (body : list item) {struct n} : option (list hist * list taxon) :=
  match n with
  | 0 => None
  | S n' =>
      match body with
      | [] => Some (cs, [])
      | it :: r =>
          if is_annotb it then chk_units n' t cs r
          else
            match it with
            | IPG og inner =>
                match chk_units n' t cs inner with
                | Some (cs', lv1) =>
                    if Nat.ltb (List.length cs') (List.length cs) then
                      match chk_units n' t cs' r with
                      | Some (cs'', lv2) => Some (cs'', lv1 ++ lv2)
                      | None => None
                      end
                    else None
                | None => None
                end
            | _ =>
                match cs with
                | c :: cr =>
                    match chk_member n' t false c it with
                    | Some (Some l) =>
                        match chk_units n' t cr r with
                        | Some (cs'', lv) => Some (cs'', l :: lv)
                        | None => None
                        end
                    | _ => None
                    end
                | [] => None
                end
            end
      end
  end.

Fixpoint isize (it : item) : nat :=
  match it with
  | IOG _ _ b | IPG _ b => S (fold_right (fun x n => isize x + n) 0 b)
  | _ => 1
  end.
Fixpoint hsize (h : hist) : nat :=
  match h with
  | XG _ _ => 1
  | XH _ lins => S (fold_right (fun l n => fold_right (fun c m => hsize c + m) 0 l + n) 0 lins)
  end.

Definition spells_topb (t : stree) (h : hist) (it : item) : bool :=
  match h, it with
  | XH p lins, IOG id og body =>
      chk_body (2 * (isize it + hsize h) + 8) t (single lins) p lins body && label_okb t lins body
  | _, _ => false
  end.

(* ---------- well-formed histories, as a boolean ---------- *)
Fixpoint nodup_tax (l : list taxon) : bool :=
  match l with
  | [] => true
  | x :: r => negb (mem_tax x r) && nodup_tax r
  end.

Fixpoint wfhb (t : stree) (genes : list (string * taxon)) (h : hist) {struct h} : bool :=
  match h with
  | XG g p => opt_tax_eqb (find_gene g genes) (Some p) && is_leaf t p
  | XH p lins =>
      valid t p && negb (is_leaf t p) && negb (match lins with [] => true | _ => false end) &&
      nodup_tax (map lin_tax lins) &&
      forallb (fun l => negb (match l with [] => true | _ => false end) &&
                        forallb (fun c => wfhb t genes c && negb (match xtax c with [] => true | _ => false end) &&
                                          taxon_eqb (tl (xtax c)) p && taxon_eqb (xtax c) (lin_tax l)) l) lins
  end.

(* ---------- the whole document ---------- *)
Definition declared_of (d : doc) : list string := flat_map (fun sp => map gd_id (sp_genes sp)) (d_species d).

Definition species_saneb (t : stree) (sp : species) : bool :=
  match search t (sp_name sp) with [p] => is_leaf t p | _ => false end.

Fixpoint forall2b {X Y} (f : X -> Y -> bool) (l1 : list X) (l2 : list Y) : bool :=
  match l1, l2 with
  | [], [] => true
  | a :: r1, b :: r2 => f a b && forall2b f r1 r2
  | _, _ => false
  end.

Definition gene_table (t : stree) (d : doc) : option (list (string * taxon)) :=
  match foldM (fun acc sp => load_species t sp acc) (d_species d) [] init_state with
  | Ok (genes, _) => Some genes
  | Err _ => None
  end.

Definition consistentb (t : stree) (d : doc) (hs : list hist) : bool :=
  forallb (species_saneb t) (d_species d) && nodupb (declared_of d) && nodupb (flat_map refs_of (d_groups d)) &&
  forall2b (spells_topb t) hs (d_groups d) &&
  match gene_table t d with
  | Some genes => forallb (wfhb t genes) hs
  | None => false
  end.
